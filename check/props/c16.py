"""C16 - imported blocks are consistent with their manifest. Spec: ImportValidity.tla.

TLC enumerates honest block shapes x tamper actions (each aimed at one of the relations
R1..R7 of the statement, item checksums re-computed and the map signed again) x arrival
orders of the items, and evaluates the statement (Storable) next to the transcription of
what importer.go and validator.go check. Binding A: every terminal state is rebuilt from a
real block of C10's pipeline (real DefaultProposalProcessor / Writer / LocalFSWriter), the
tampered copy is written by the real LocalFSWriter, and the real BlockImporter is fed through
isaacblock.ImportBlocks on a node synced up to the block below. Verdict: stored => Storable,
and stored => the repository's own IsValidBlockFromLocalFS accepts what was stored."""
import os

from vlib import core
from props import c10

# block shapes of the specification -> the real block under import (operations of C10's catalogue)
SHAPE_OPS = {
    "full": ["j1", "d2", "cx1"],      # every operation goes into a state: suffrage + candidates change
    "cand": ["cx1"],                  # candidates state only
    "rejected": ["j1", "j8"],         # j8 is refused by the processor: a leaf that is not in a state
    "empty": [],                      # no operation, no state
}


def world_record(ctx):
    """the world (genesis, script, catalogue) comes from BlockProcess.tla"""
    w, _, _ = c10.run_model(ctx, "BlockProcess", c10.stage_cfg(
        ctx, "BlockProcess_mc_quick.cfg", "c16-world.cfg", {"MaxOps": "1", "CatIds": '{"u1"}'}), timeout=600)
    return w


def run_plan(ctx, world, cat, tag, cfg, limit=None):
    r = ctx.tlc("ImportValidity", cfg, args=list(c10.TLC_ARGS), timeout=1500, java_opts=c10.JAVA_OPTS)
    cases = c10.printed(r.out, "CASE")
    if not cases:
        raise core.MachineryError("TLC %s printed no case" % cfg)
    if limit and len(cases) > limit:
        import random
        rnd = random.Random(ctx.seed)
        keep = [c for c in cases if len(c["tampers"]) <= 1]
        rest = [c for c in cases if len(c["tampers"]) > 1]
        rnd.shuffle(rest)
        cases = keep + rest[:max(0, limit - len(keep))]
    inp = os.path.join(ctx.work, "cases-%s.ndjson" % tag)
    res = os.path.join(ctx.work, "res-%s.ndjson" % tag)
    rows = []
    for c in cases:
        ci = c10.case_input(world, SHAPE_OPS[c["shape"]], [], [], 1, cat)
        rows.append({"chain": ci["chain"], "tampers": c["tampers"], "order": c["order"]})
    # once per shape: the writer's own files, untouched
    raws = []
    for shape in sorted(set(c["shape"] for c in cases)):
        ci = c10.case_input(world, SHAPE_OPS[shape], [], [], 1, cat)
        rows.append({"chain": ci["chain"], "tampers": [], "raw": True})
        raws.append({"kind": "case", "shape": shape, "tampers": [], "order": [], "broken": [], "storable": True,
                     "importer": True, "validator": True, "raw": True})
    cases = cases + raws
    core.write_ndjson(inp, rows)
    ctx.vh(["C16", "replay", "--in", inp, "--out", res, "--work", os.path.join(ctx.work, "go-" + tag)], timeout=2400)
    outs = core.read_ndjson(res)
    if len(outs) != len(rows):
        raise core.MachineryError("harness answered %d of %d cases" % (len(outs), len(rows)))
    st = ctx.extra.setdefault("stats", {})

    def bump(k):
        st[k] = st.get(k, 0) + 1

    for c, o in zip(cases, outs):
        if o.get("err"):
            raise core.MachineryError("harness could not run %s/%s: %s" % (c["shape"], c["tampers"], o["err"][:500]))
        if o.get("skipped"):
            bump("skipped_not_applicable")
            continue
        ctx.traces += 1
        broken = sorted(c["broken"])
        sample = {"shape": c["shape"], "block_operations": SHAPE_OPS[c["shape"]], "tampers": c["tampers"],
                  "arrival_order": c["order"], "spec": {"broken": ["R%d" % k for k in broken], "storable": c["storable"],
                                                         "importer_model": c["importer"], "validator_model": c["validator"]},
                  "real": {"stored": o["stored"], "import_error": o.get("import_err", ""),
                           "validator": o["validator"] or "accepts" if o["stored"] else "-",
                           "db_members": o.get("db_members"), "db_policy": o.get("db_policy")}}
        ctx.case([c["shape"], c["tampers"], c["order"], bool(c.get("raw"))], nontrivial=bool(c["tampers"]), sample=sample)
        bump("stored" if o["stored"] else "refused")
        if o["stored"] != c["importer"]:
            bump("importer_model_differs")
            ctx.extra.setdefault("importer_model_differs", []).append(
                {"shape": c["shape"], "tampers": c["tampers"], "model": c["importer"], "real": o["stored"],
                 "import_error": o.get("import_err", "")[-160:]})
        if not o["stored"]:
            if not c["tampers"]:
                bump("honest_block_refused")
                ctx.extra.setdefault("honest_block_refused", []).append({"shape": c["shape"], "error": o.get("import_err", "")})
            continue
        # the statement: stored => Storable
        for k in broken:
            what = "a block whose %s was stored by BlockImporter: tampers %s on a block with operations %s%s" % (
                {1: "operations do not match the manifest's operations tree (R1)",
                 2: "states do not match the manifest's states tree (R2)",
                 3: "proposal is not the manifest's (R3)",
                 4: "voteproofs are not for the manifest's point (R4)",
                 5: "ACCEPT voteproof is not a majority for the manifest hash (R5)",
                 6: "item checksum differs from the map's (R6)",
                 7: "map is not validly signed (R7)"}[k], c["tampers"], SHAPE_OPS[c["shape"]],
                "; importing node's suffrage afterwards: %s, policy %s" % (o.get("db_members"), o.get("db_policy")))
            ctx.violation("importer-skips(R%d)" % k, what, sample)
        # the statement's first sentence, by the repository's own validator
        if o["validator"]:
            if c["storable"]:
                ctx.violation("validator-rejects-storable-block(%s)" % (
                    "not-in-state-operation" if c["shape"] == "rejected" else c["shape"]),
                    "an honest block (operations %s) is stored but IsValidBlockFromLocalFS refuses it: %s" % (
                        SHAPE_OPS[c["shape"]], o["validator"][-160:]), sample)
            bump("stored_but_validator_refuses")
        elif not c["storable"]:
            for k in broken:
                bump("validator_also_skips_R%d" % k)
        if bool(o["validator"] == "") != bool(c["validator"]):
            bump("validator_model_differs")
            ctx.extra.setdefault("validator_model_differs", []).append(
                {"shape": c["shape"], "tampers": c["tampers"], "model": c["validator"], "real": o["validator"][-120:]})
    for k in ("importer_model_differs", "validator_model_differs"):
        if k in ctx.extra:
            ctx.extra[k] = ctx.extra[k][:20]
    return r


def run(ctx):
    quick = ctx.tier == "quick"
    world = world_record(ctx)
    cat = {o["id"]: o for o in world["catalogue"]}
    if quick:
        run_plan(ctx, world, cat, "mc", "ImportValidity_mc_quick.cfg")
    else:
        run_plan(ctx, world, cat, "mc", "ImportValidity_mc_thorough.cfg", limit=1500)
        run_plan(ctx, world, cat, "orders", "ImportValidity_mc_orders.cfg", limit=1200)
    # the statement on the transcription of the importer: expected to fail (candidates, reproduced above)
    r = ctx.tlc("ImportValidity", "ImportValidity_statement.cfg", args=list(c10.TLC_ARGS), timeout=600,
                java_opts=c10.JAVA_OPTS, allow_violation=True, count=False)
    ctx.extra["statement_on_importer_model"] = r.violated or "holds"
    ctx.exhaustive = True
    ctx.rule = ("every terminal state of ImportValidity.tla (block shape x tamper actions x arrival order of the items) "
                "rebuilt from a real block and imported by the real BlockImporter, plus each shape's untouched files; "
                "distinct by (shape, tampers, order); non-trivial = at least one tamper action")
    ctx.assumptions = [
        "the manifest is the one agreed by consensus; a sync source can change every item, re-compute checksums and sign the map again",
        "block maps are validated (IsValid) when fetched, as the syncer does",
        "tamper actions that do not apply to a shape (no operations / no states) are skipped",
    ]
