"""C16 - imported blocks are consistent with their manifest. Spec: ImportValidity.tla.

TLC enumerates honest block shapes x tamper actions (each aimed at one of the relations
R1..R7 of the statement, item checksums re-computed and the map signed again) x arrival
orders of the items, and evaluates the statement (Storable) next to the transcription of
what importer.go and validator.go check. Binding A: every terminal state is rebuilt from a
real block of C10's pipeline (real DefaultProposalProcessor / Writer / LocalFSWriter), the
tampered copy is written by the real LocalFSWriter, and the real BlockImporter is fed through
isaacblock.ImportBlocks on a node synced up to the block below. Verdict: stored => Storable,
and stored => the repository's own IsValidBlockFromLocalFS accepts what was stored.

The relations are judged on what was STORED: the harness reads the specification's Facts()
record (points of both voteproofs relative to the manifest, ACCEPT majority, proposal, tree
roots, checksums, signature) back from the stored files and rel_facts() (= RelFacts of the
module) evaluates R3..R7 on it - not the repository's validator, which shares
base.IsValidVoteproofsWithManifest with the importer. The same record read from the tampered
source must equal the model's (soundness of the binding; a difference is a machinery error)."""
import os

from vlib import core
from props import c10

# block shapes of the specification -> the real block under import (operations of C10's catalogue)
SHAPE_OPS = {
    "full": ["j1", "d2", "cx1"],      # every operation goes into a state: suffrage + candidates change
    "cand": ["cx1"],                  # candidates state only
    "rejected": ["j1", "j8"],         # j8 is refused by the processor: a leaf that is not in a state
    "empty": [],                      # no operation, no state
}


FACT_FIELDS = ["ivp", "avp", "maj", "nbm", "propm", "proph", "opsroot", "stsroot", "stale", "signed"]


def rel_facts(f):
    """ImportValidity.tla RelFacts: the relations as functions of a read-back Facts() record
    -> set of broken relation numbers (R1, R2: the root clause only)"""
    ok = {1: f["opsroot"], 2: f["stsroot"],
          3: f["propm"] and f["proph"] == 0,
          4: f["ivp"][0] == 0 and f["avp"][0] == 0 and f["ivp"][1] == f["avp"][1],
          5: f["maj"] and f["nbm"],
          6: not f["stale"],
          7: f["signed"]}
    return {k for k, v in ok.items() if not v}


def facts_diff(model, real):
    return ["%s: model %s, files %s" % (k, model[k], real.get(k)) for k in FACT_FIELDS
            if (sorted(model[k]) if k == "stale" else model[k]) != (sorted(real.get(k) or []) if k == "stale" else real.get(k))]


def r4_class(f):
    """which of the two voteproofs is off the manifest's point, and how"""
    parts = []
    for name in ("ivp", "avp"):
        dh = f[name][0]
        if dh:
            parts.append("%s-height%+d" % (name, dh))
    if f["ivp"][1] != f["avp"][1]:
        parts.append("rounds-differ")
    return ",".join(parts) or "?"


def world_record(ctx):
    """the world (genesis, script, catalogue) comes from BlockProcess.tla"""
    w, _, _ = c10.run_model(ctx, "BlockProcess", c10.stage_cfg(
        ctx, "BlockProcess_mc_quick.cfg", "c16-world.cfg", {"MaxOps": "1", "CatIds": '{"u1"}'}), timeout=600)
    return w


def plan_cases(ctx, cfg, limit=None):
    r = ctx.tlc("ImportValidity", cfg, args=list(c10.TLC_ARGS), timeout=1500, java_opts=c10.JAVA_OPTS)
    cases = c10.printed(r.out, "CASE")
    if not cases:
        raise core.MachineryError("TLC %s printed no case" % cfg)
    if limit and len(cases) > limit:
        import random
        rnd = random.Random(ctx.seed)
        keep = [c for c in cases if len(c["tampers"]) <= 1]
        rest = [c for c in cases if len(c["tampers"]) > 1]
        rnd.shuffle(rest)
        cases = keep + rest[:max(0, limit - len(keep))]
    return cases


def run_plan(ctx, world, cat, tag, cfgs):
    """cfgs: [(cfg, limit)] - the terminal states of all of them are replayed by one harness run"""
    cases, seen = [], set()
    for cfg, limit in cfgs:
        for c in plan_cases(ctx, cfg, limit):
            k = (c["shape"], tuple(c["tampers"]), tuple(c["order"]))
            if k not in seen:
                seen.add(k)
                cases.append(c)
    inp = os.path.join(ctx.work, "cases-%s.ndjson" % tag)
    res = os.path.join(ctx.work, "res-%s.ndjson" % tag)
    rows = []
    for c in cases:
        ci = c10.case_input(world, SHAPE_OPS[c["shape"]], [], [], 1, cat)
        rows.append({"chain": ci["chain"], "tampers": c["tampers"], "order": c["order"]})
    # once per shape: the writer's own files, untouched
    raws = []
    for shape in sorted(set(c["shape"] for c in cases)):
        ci = c10.case_input(world, SHAPE_OPS[shape], [], [], 1, cat)
        rows.append({"chain": ci["chain"], "tampers": [], "raw": True})
        raws.append({"kind": "case", "shape": shape, "tampers": [], "order": [], "broken": [], "storable": True,
                     "importer": True, "validator": True, "raw": True,
                     "facts": {"ivp": [0, 0], "avp": [0, 0], "maj": True, "nbm": True, "propm": True, "proph": 0,
                               "opsroot": True, "stsroot": True, "stale": [], "signed": True}})
    cases = cases + raws
    core.write_ndjson(inp, rows)
    ctx.vh(["C16", "replay", "--in", inp, "--out", res, "--work", os.path.join(ctx.work, "go-" + tag)], timeout=2400)
    outs = core.read_ndjson(res)
    if len(outs) != len(rows):
        raise core.MachineryError("harness answered %d of %d cases" % (len(outs), len(rows)))
    st = ctx.extra.setdefault("stats", {})

    def bump(k):
        st[k] = st.get(k, 0) + 1

    for c, o in zip(cases, outs):
        if o.get("err"):
            raise core.MachineryError("harness could not run %s/%s: %s" % (c["shape"], c["tampers"], o["err"][:500]))
        if o.get("skipped"):
            bump("skipped_not_applicable")
            continue
        ctx.traces += 1
        broken = sorted(c["broken"])
        # soundness of the binding: the files offered by the source are the model's block
        so = o.get("source_obs") or {}
        if so.get("err") and c["storable"]:
            raise core.MachineryError("cannot read the source block back %s/%s: %s" % (c["shape"], c["tampers"], so["err"]))
        if not so.get("err"):
            d = facts_diff(c["facts"], so)
            if d:
                raise core.MachineryError("the tampered source is not the model's block %s/%s: %s" % (
                    c["shape"], c["tampers"], "; ".join(d)))
            bump("source_facts_agree")
        sample = {"shape": c["shape"], "block_operations": SHAPE_OPS[c["shape"]], "tampers": c["tampers"],
                  "arrival_order": c["order"], "spec": {"broken": ["R%d" % k for k in broken], "storable": c["storable"],
                                                         "importer_model": c["importer"], "validator_model": c["validator"]},
                  "real": {"stored": o["stored"], "import_error": o.get("import_err", ""),
                           "source_validator": o.get("source_validator") or "accepts",
                           "stored_facts": o.get("stored_obs"),
                           "validator": o["validator"] or "accepts" if o["stored"] else "-",
                           "db_members": o.get("db_members"), "db_policy": o.get("db_policy")}}
        ctx.case([c["shape"], c["tampers"], c["order"], bool(c.get("raw"))], nontrivial=bool(c["tampers"]), sample=sample)
        bump("stored" if o["stored"] else "refused")
        if o["stored"] != c["importer"]:
            bump("importer_model_differs")
            ctx.extra.setdefault("importer_model_differs", []).append(
                {"shape": c["shape"], "tampers": c["tampers"], "model": c["importer"], "real": o["stored"],
                 "import_error": o.get("import_err", "")[-160:]})
        if not o["stored"]:
            if not c["tampers"]:
                bump("honest_block_refused")
                ctx.extra.setdefault("honest_block_refused", []).append({"shape": c["shape"], "error": o.get("import_err", "")})
            continue
        # the statement: stored => Storable, evaluated on what was stored (read back from the
        # stored files) as well as on the model's block
        st_obs = o.get("stored_obs") or {}
        if st_obs.get("err"):
            ctx.violation("stored-block-unreadable", "BlockImporter stored a block whose items cannot be read back: %s; tampers %s" % (
                st_obs["err"], c["tampers"]), sample)
            seen_broken = set()
        else:
            seen_broken = rel_facts(st_obs)
            if facts_diff(c["facts"], st_obs):
                bump("stored_differs_from_offered")
                ctx.extra.setdefault("stored_differs_from_offered", []).append(
                    {"shape": c["shape"], "tampers": c["tampers"], "diff": facts_diff(c["facts"], st_obs)})
        for k in sorted(seen_broken - set(broken)):
            # (R1, R2 are seen by their root clause only: a subset of the model's)
            ctx.violation("importer-skips(R%d)" % k, "the block stored by BlockImporter breaks R%d as read back from the stored "
                          "files (%s) although the offered block did not: tampers %s" % (k, st_obs, c["tampers"]), sample)
        for k in broken:
            if k in (3, 4, 5, 6, 7) and not st_obs.get("err") and k not in seen_broken:
                continue        # what was stored does not break it (the importer repaired / dropped the item)
            if k == 4:
                ctx.violation("importer-skips(R4:%s)" % r4_class(st_obs),
                              "a block whose voteproofs are not for the manifest's point (R4) was stored by BlockImporter: "
                              "stored INIT voteproof at manifest height%+d round %d, ACCEPT voteproof at manifest height%+d round %d; "
                              "tampers %s on a block with operations %s; IsValidBlockFromLocalFS on what was stored: %s" % (
                                  st_obs["ivp"][0], st_obs["ivp"][1], st_obs["avp"][0], st_obs["avp"][1], c["tampers"],
                                  SHAPE_OPS[c["shape"]], o["validator"] or "accepts"), sample)
                continue
            what = "a block whose %s was stored by BlockImporter: tampers %s on a block with operations %s%s" % (
                {1: "operations do not match the manifest's operations tree (R1)",
                 2: "states do not match the manifest's states tree (R2)",
                 3: "proposal is not the manifest's (R3)",
                 4: "voteproofs are not for the manifest's point (R4)",
                 5: "ACCEPT voteproof is not a majority for the manifest hash (R5)",
                 6: "item checksum differs from the map's (R6)",
                 7: "map is not validly signed (R7)"}[k], c["tampers"], SHAPE_OPS[c["shape"]],
                "; importing node's suffrage afterwards: %s, policy %s" % (o.get("db_members"), o.get("db_policy")))
            ctx.violation("importer-skips(R%d)" % k, what, sample)
        # the statement's first sentence, by the repository's own validator
        if o["validator"]:
            if c["storable"]:
                ctx.violation("validator-rejects-storable-block(%s)" % (
                    "not-in-state-operation" if c["shape"] == "rejected" else c["shape"]),
                    "an honest block (operations %s) is stored but IsValidBlockFromLocalFS refuses it: %s" % (
                        SHAPE_OPS[c["shape"]], o["validator"][-160:]), sample)
            bump("stored_but_validator_refuses")
        elif not c["storable"]:
            for k in broken:
                bump("validator_also_skips_R%d" % k)
        if bool(o["validator"] == "") != bool(c["validator"]):
            bump("validator_model_differs")
            ctx.extra.setdefault("validator_model_differs", []).append(
                {"shape": c["shape"], "tampers": c["tampers"], "model": c["validator"], "real": o["validator"][-120:]})
    for k in ("importer_model_differs", "validator_model_differs", "stored_differs_from_offered"):
        if k in ctx.extra:
            ctx.extra[k] = ctx.extra[k][:20]


def run(ctx):
    quick = ctx.tier == "quick"
    world = world_record(ctx)
    cat = {o["id"]: o for o in world["catalogue"]}
    # ..._mc_vps*.cfg: each of the two voteproofs at its own point - every pair of voteproof tamper actions
    if quick:
        run_plan(ctx, world, cat, "mc", [("ImportValidity_mc_quick.cfg", None), ("ImportValidity_mc_vps.cfg", None)])
    else:
        run_plan(ctx, world, cat, "mc", [("ImportValidity_mc_thorough.cfg", 1500), ("ImportValidity_mc_vps_thorough.cfg", None)])
        run_plan(ctx, world, cat, "orders", [("ImportValidity_mc_orders.cfg", 1200)])
    # the statement on the transcription of the importer: expected to fail (candidates, reproduced above)
    r = ctx.tlc("ImportValidity", "ImportValidity_statement.cfg", args=list(c10.TLC_ARGS), timeout=600,
                java_opts=c10.JAVA_OPTS, allow_violation=True, count=False)
    ctx.extra["statement_on_importer_model"] = r.violated or "holds"
    ctx.exhaustive = True
    ctx.rule = ("every terminal state of ImportValidity.tla (block shape x tamper actions x arrival order of the items) "
                "and every pair of voteproof tamper actions (each voteproof at its own point), "
                "rebuilt from a real block and imported by the real BlockImporter, plus each shape's untouched files; "
                "relations judged on the Facts() record read back from the stored files; "
                "distinct by (shape, tampers, order); non-trivial = at least one tamper action")
    ctx.assumptions = [
        "the manifest is the one agreed by consensus; a sync source can change every item, re-compute checksums and sign the map again",
        "block maps are validated (IsValid) when fetched, as the syncer does",
        "tamper actions that do not apply to a shape (no operations / no states) are skipped",
    ]
