"""C11 - a block is saved only for the agreed manifest, once per height.
Spec: BlockSave.tla (implementation-level model of ProposalProcessors + DefaultProposalProcessor.Save,
properties from the statement over the log of BlockWriter.Save calls) + BlockSaveTrace.tla.

Binding B: the real isaac.ProposalProcessors with real DefaultProposalProcessors (really signed
proposals, real voteproofs, stub BlockWriter whose manifest is derived from the proposal) is driven
with every call sequence of a given length over a small alphabet and with seeded random calls from
2-4 goroutines; call / return / writer-save events are validated by TLC (one linearization point
per call). Verdict only from the BlockWriter.Save log: a save whose ACCEPT majority names another
block than the processor's manifest or whose Save call named another proposal; two saves whose
heights do not strictly increase.

Binding G without a hook (BlockSaveLock.tla, harness/internal/c11/force.go): the lock-level specification has
ProposalProcessors.l as an explicit resource (Process keeps it while the processor runs, Save while the block is
written, Save = check / enqueue / acquire / act). TLC checks the statement on it under free interleaving, refutes
it for implementations that decide on a previousSaved read before the lock is owned (BlockSaveLock_stale.cfg) and
prints every maximal controller schedule (start a call / open the gate of a running processor / of a block write);
each is forced on the real objects - the stub writer's Manifest and Save park on harness gates so that calls queue
behind them in the order of the schedule - and the writer's Save log is judged as above (keys with the suffix
;calls-queued-behind-running-processor). Returns that differ from the specification are model fidelity
(ctx.extra), never a verdict.
"""
import os
import re
import shutil
import subprocess
import threading
import time

from vlib import core


def histories(events):
    out = []
    for i, e in enumerate(events):
        if e["a"] == "Reset":
            out.append((i + 1, []))
        if out:
            out[-1][1].append(e)
    return out


def judge(evs):
    out = []
    open_calls = {}
    last_h = None
    for i, e in enumerate(evs):
        if e["a"] == "Call":
            open_calls[e["id"]] = e
        elif e["a"] == "Ret":
            open_calls.pop(e["id"], None)
        elif e["a"] == "WSave":
            if e["nb"] != e["m"]:
                out.append((i, "saved-with-other-new-block",
                            "block of proposal %s (manifest %s) saved for an ACCEPT majority naming %s" % (e["f"], e["m"], e["nb"])))
            elif not any(c["op"] == "Save" and c["f"] == e["f"] and c["ah"] == e["ah"] and c["nb"] == e["nb"]
                         for c in open_calls.values()):
                out.append((i, "saved-for-other-proposal",
                            "block of proposal %s saved although no Save call in flight named it (in flight: %s)" % (
                                e["f"], [(c["op"], c["f"], c["ah"], c["nb"]) for c in open_calls.values()])))
            if last_h is not None and e["h"] <= last_h:
                out.append((i, "second-save-at-height" if e["h"] == last_h else "save-below-saved-height",
                            "block of height %d saved after a block of height %d" % (e["h"], last_h)))
            last_h = e["h"] if last_h is None else max(last_h, e["h"])
    return out


def short(evs, upto=None, n=14):
    r = []
    for e in (evs if upto is None else evs[:upto + 1]):
        if e["a"] == "Call":
            r.append("%d:%s(%s%s)" % (e["id"], e["op"], e["f"], (",h%d,%s" % (e["ah"], e["nb"])) if e["op"] == "Save" else ""))
        elif e["a"] == "Ret":
            r.append("%d:->%s" % (e["id"], e["res"]))
        elif e["a"] == "WSave":
            r.append("WriterSave(%s,h%d,avp h%d %s)" % (e["f"], e["h"], e["ah"], e["nb"]))
    return r[-n:]


def validate_parallel(ctx, chunks, timeout):
    res = [None] * len(chunks)
    errs = []
    sem = threading.Semaphore(6 if ctx.tier == "thorough" else 3)

    def one(i, path):
        with sem:
            d = os.path.join(ctx.work, "tv%d_%d" % (ctx._tv, i))
            os.makedirs(d)
            for f in ("BlockSave.tla", "BlockSaveTrace.tla", "BlockSaveTrace.cfg"):
                shutil.copy(os.path.join(core.SPEC, f), d)
            shutil.copy(path, os.path.join(d, "trace.ndjson"))
            cmd = ["java", "-XX:+UseParallelGC", "-Xss64m", "-Xmx3g", "-Dtlc2.tool.queue.IStateQueue=StateDeque",
                   "-cp", core._classpath(), "tlc2.TLC", "-workers", "1", "-metadir", os.path.join(d, "meta"),
                   "-config", "BlockSaveTrace.cfg", "BlockSaveTrace.tla"]
            try:
                p = subprocess.run(cmd, cwd=d, stdout=subprocess.PIPE, stderr=subprocess.STDOUT, text=True, timeout=timeout)
            except subprocess.TimeoutExpired:
                errs.append("trace validation of %s timed out after %ss" % (path, timeout))
                return
            r = core.TLCResult(p.returncode, p.stdout, 0)
            hw = None
            m = re.findall(r'<<"HW", (\d+), (\d+)>>', p.stdout)
            if m:
                hw = int(m[-1][0])
            if p.returncode != 0 and hw is None:
                errs.append("TLC BlockSaveTrace exit %d:\n%s" % (p.returncode, p.stdout[-3000:]))
                return
            res[i] = (p.returncode == 0, r, hw)
            shutil.rmtree(d, ignore_errors=True)

    ts = [threading.Thread(target=one, args=(i, p)) for i, p in enumerate(chunks)]
    for t in ts:
        t.start()
    for t in ts:
        t.join()
    ctx._tv += 1
    if errs:
        raise core.MachineryError(errs[0])
    ctx.tlc_cmds.append("tlc -workers 1 -config BlockSaveTrace.cfg BlockSaveTrace.tla   (x%d trace chunks, depth-first queue)" % len(chunks))
    for (_, r, _) in res:
        ctx.states += r.distinct
        ctx.transitions += r.generated
    return res


def validate_and_judge(ctx, label, events):
    hs = histories(events)
    nchunks = max(1, min(12 if ctx.tier == "thorough" else 3, len(hs) // 100))
    per = (len(hs) + nchunks - 1) // nchunks
    groups = [hs[i:i + per] for i in range(0, len(hs), per)]
    unexplained = []
    for rnd in range(8):
        paths = []
        for gi, g in enumerate(groups):
            p = os.path.join(ctx.work, "%s_chunk%d_%d.ndjson" % (label, rnd, gi))
            core.write_ndjson(p, [e for (_, evs) in g for e in evs])
            paths.append(p)
        res = validate_parallel(ctx, paths, timeout=1500)
        again = []
        for g, (ok, r, hw) in zip(groups, res):
            if ok:
                continue
            n = 0
            loc = None
            for (first, evs) in g:
                if hw is not None and n <= hw - 1 < n + len(evs):
                    loc = (first, evs, hw - 1 - n)
                n += len(evs)
            if loc is None:
                raise core.MachineryError("trace rejected without a usable high-water mark:\n" + r.out[-2000:])
            unexplained.append(loc)
            rest = [h for h in g if h[0] != loc[0]]
            if rest:
                again.append(rest)
        groups = again
        if not groups:
            break
    else:
        ctx.extra["unvalidated_histories"] = ctx.extra.get("unvalidated_histories", 0) + sum(len(g) for g in groups)

    saves = 0
    for (first, evs) in hs:
        saves += sum(1 for e in evs if e["a"] == "WSave")
        for (i, key, what) in judge(evs):
            ctx.violation(key, "%s; history: %s" % (what, " ".join(short(evs, i))),
                          {"source": label, "first_line": first, "index": i, "events": evs[:i + 3]})
    for (first, evs, idx) in unexplained:
        ctx.extra.setdefault("unexplained_histories", []).append(
            {"source": label, "first_line": first, "unexplained_event": evs[idx] if idx < len(evs) else None,
             "before": short(evs, idx, 10), "statement_violations": [j[1] for j in judge(evs)]})
    return len(hs), len(unexplained), saves


# ------------------------------------------------------------------ forced schedules (BlockSaveLock.tla)
def call_name(e):
    if e["op"] == "Process":
        return "P.%s" % e["f"]
    if e["op"] == "Save":
        return "S.%s.%d.%s" % (e["f"], e["ah"], e["nb"])
    return "C"


def groups_of_hist(entries):
    """spec side: [">P.P1", ">O.P1", "P.P1=manifest", ...] -> [(command, returns (sorted), writer saves (in order))]"""
    gs = []
    for x in entries:
        if x.startswith(">"):
            gs.append([x[1:], [], []])
        elif x.startswith("W."):
            gs[-1][2].append(x)
        else:
            gs[-1][1].append(x)
    return [(g[0].split(".")[0] if g[0].startswith("C.") else g[0], sorted(r.replace("C.1=", "C=") for r in g[1]), g[2]) for g in gs]


def groups_of_events(evs):
    """real side: the same form from the Cmd / Call / WSave / Ret events of one forced schedule"""
    names = {}
    gs = []
    for e in evs:
        if e["a"] == "Cmd":
            gs.append([e["c"].split(".")[0] if e["c"].startswith("C.") else e["c"], [], []])
        elif e["a"] == "Call":
            names[e["id"]] = call_name(e)
        elif e["a"] == "WSave" and gs:
            gs[-1][2].append("W.%s.%d.%s" % (e["f"], e["h"], e["nb"]))
        elif e["a"] == "Ret" and gs:
            gs[-1][1].append("%s=%s" % (names.get(e["id"], "?"), e["res"]))
    if gs and gs[-1][0] == "end" and not gs[-1][1] and not gs[-1][2]:
        gs.pop()
    return [(g[0], sorted(g[1]), g[2]) for g in gs]


class LockTLC(threading.Thread):
    """The TLC runs on BlockSaveLock.tla, in the background of the recording / trace-validation phases (they are
    independent of them): per alphabet one run = the statement on the lock-level model of the pinned design under
    free interleaving (any waiter may win the mutex) + the controller schedules (mode "forced", printed by
    EmitSched); and the run that must refute the statement for a height check made before the lock is owned."""

    def __init__(self, ctx):
        threading.Thread.__init__(self)
        self.ctx = ctx
        self.dir = os.path.join(ctx.work, "lockspec")
        os.makedirs(self.dir)
        for f in os.listdir(core.SPEC):
            if f.startswith("BlockSave") and (f.endswith(".tla") or f.endswith(".cfg")):
                shutil.copy(os.path.join(core.SPEC, f), self.dir)
        self.cfgs = ["BlockSaveLock_mc_quick.cfg"] if ctx.tier == "quick" else ["BlockSaveLock_mc_thorough.cfg", "BlockSaveLock_mc_thorough2.cfg"]
        self.workers = 6 if ctx.tier == "quick" else 8
        self.err = None
        self.scheds = []
        self.results = []
        self.stale = None
        self.wall = 0
        self.proc = None
        self.aborted = False

    def tlc(self, cfg, timeout):
        meta = os.path.join(self.dir, "meta_" + cfg)
        cmd = ["java", "-XX:+UseParallelGC", "-Xss64m", "-Xmx6g", "-cp", core._classpath(), "tlc2.TLC", "-workers", str(self.workers),
               "-metadir", meta, "-config", cfg, "BlockSaveLock.tla"]
        if self.aborted:
            raise core.MachineryError("aborted")
        self.proc = subprocess.Popen(cmd, cwd=self.dir, stdout=subprocess.PIPE, stderr=subprocess.STDOUT, text=True)
        try:
            out, _ = self.proc.communicate(timeout=timeout)
        except subprocess.TimeoutExpired:
            self.proc.kill()
            self.proc.communicate()
            raise core.MachineryError("TLC BlockSaveLock/%s timed out after %ss" % (cfg, timeout))
        finally:
            shutil.rmtree(meta, ignore_errors=True)
        return core.TLCResult(self.proc.returncode, out, 0)

    def abort(self):
        """another phase failed: do not leave a TLC behind"""
        self.aborted = True
        if self.proc is not None and self.proc.poll() is None:
            self.proc.kill()
        self.join()

    def run(self):
        t0 = time.time()
        try:
            for cfg in self.cfgs:
                r = self.tlc(cfg, 3000)
                if r.rc != 0:
                    raise core.MachineryError("TLC BlockSaveLock/%s exit %d:\n%s" % (cfg, r.rc, core._tlc_tail(r.out)))
                found = re.findall(r'^"SCHED((?: \S+)*)"$', r.out, re.M)
                if not found:
                    raise core.MachineryError("%s printed no schedule:\n%s" % (cfg, r.out[-2000:]))
                for h in found:
                    ent = h.split()
                    self.scheds.append({"id": len(self.scheds), "cmds": [x[1:] for x in ent if x.startswith(">")], "hist": ent})
                self.results.append(r)
            r = self.tlc("BlockSaveLock_stale.cfg", 1800)
            if r.violated != "OncePerHeight":
                raise core.MachineryError(
                    "BlockSaveLock_stale.cfg: the forced schedules do not refute OncePerHeight for a height check made before "
                    "the mutex is owned (exit %d, violated: %s) - the schedule family lost its point:\n%s" % (r.rc, r.violated, core._tlc_tail(r.out)))
            self.stale = r
        except core.MachineryError as e:
            self.err = e
        except Exception as e:  # noqa
            self.err = core.MachineryError("lock-level TLC runs: %r" % (e,))
        self.wall = round(time.time() - t0, 1)

    def collect(self, phase):
        t0 = time.time()
        self.join()
        phase["lock_tlc_wait"] = round(time.time() - t0, 1)
        phase["lock_tlc_background"] = self.wall
        if self.err:
            raise self.err
        ctx = self.ctx
        for cfg, r in zip(self.cfgs, self.results):
            ctx.states += r.distinct
            ctx.transitions += r.generated
            ctx.tlc_cmds.append("tlc -workers %d -config %s BlockSaveLock.tla" % (self.workers, cfg))
        ctx.tlc_cmds.append("tlc -workers %d -config BlockSaveLock_stale.cfg BlockSaveLock.tla   (must violate OncePerHeight)" % self.workers)
        ctx.extra["lock_level_model"] = {"check_before_lock_refuted_in_states": self.stale.distinct}
        return self.scheds


def forced_phase(ctx, phase, scheds):
    """TLC enumerated the controller schedules of the lock-level specification; each one is forced on the real
    ProposalProcessors (calls queue behind a processor / a block write parked at a harness gate); the writer's Save
    log is judged."""
    t0 = time.time()
    nshard = 8
    results = {}
    errs = []

    def one(k):
        inp = os.path.join(ctx.work, "forced_in_%d.ndjson" % k)
        outp = os.path.join(ctx.work, "forced_out_%d.ndjson" % k)
        core.write_ndjson(inp, [{"id": s["id"], "cmds": s["cmds"]} for s in scheds[k::nshard]])
        try:
            ctx.vh(["C11", "force", "--in", inp, "--out", outp], timeout=3000)
            for r_ in core.read_ndjson(outp):
                results[r_["id"]] = r_
        except core.MachineryError as e:
            errs.append(e)

    ts = [threading.Thread(target=one, args=(k,)) for k in range(nshard)]
    for t in ts:
        t.start()
    for t in ts:
        t.join()
    if errs:
        raise errs[0]
    if len(results) != len(scheds):
        raise core.MachineryError("forced schedules: %d results for %d schedules" % (len(results), len(scheds)))

    not_forced = []
    differs = []
    saves = 0
    for s in scheds:
        r_ = results[s["id"]]
        evs = [e for e in r_["events"] if e["a"] in ("Call", "Ret", "WSave")]
        kinds = set(c[0] for c in s["cmds"])
        ctx.case(["forced"] + s["cmds"], nontrivial="P" in kinds and "S" in kinds,
                 sample=" ".join(s["hist"]) if len([x for x in s["hist"] if x.startswith("W.")]) > 1 else None)
        saves += sum(1 for e in evs if e["a"] == "WSave")
        # verdict: only the writer's Save log, whatever the schedule turned out to be
        for (i, key, what) in judge(evs):
            ctx.violation(key + ";calls-queued-behind-running-processor",
                          "%s; forced schedule: %s; observed: %s" % (what, " ".join(s["cmds"]), " ".join(short(evs, i, 20))),
                          {"source": "forced", "schedule": s["cmds"], "specified": s["hist"], "status": r_["status"],
                           "events": r_["events"]})
        if r_["status"] != "forced":
            not_forced.append({"schedule": s["cmds"], "status": r_["status"]})
        elif groups_of_events(r_["events"]) != groups_of_hist(s["hist"]):
            differs.append({"schedule": s["cmds"], "specified": " ".join(s["hist"]),
                            "observed": [[g[0]] + g[1] + g[2] for g in groups_of_events(r_["events"])]})
    ctx.traces += len(scheds) - len(not_forced)
    ctx.extra["forced_schedules"] = {"schedules": len(scheds), "not_forced": len(not_forced),
                                     "not_as_specified": len(differs), "writer_saves_observed": saves}
    if not_forced:
        ctx.extra["forced_schedules"]["not_forced_samples"] = not_forced[:5]
    if differs:
        ctx.extra["forced_schedules"]["not_as_specified_samples"] = differs[:5]
    phase["lock_forced"] = round(time.time() - t0, 1)
    if len(not_forced) > len(scheds) // 10:
        raise core.MachineryError("%d of %d schedules could not be forced (first: %s)" % (len(not_forced), len(scheds), not_forced[0]))
    if len(differs) > len(scheds) // 10 and not ctx.viol:
        raise core.MachineryError("%d of %d forced schedules did not go as BlockSaveLock.tla says - the model no longer describes "
                                  "the code (first: %s)" % (len(differs), len(scheds), differs[0]))
    if saves < 20:
        raise core.MachineryError("only %d BlockWriter.Save calls in the forced schedules" % saves)


def run(ctx):
    ctx._tv = 0
    quick = ctx.tier == "quick"
    phase = ctx.extra.setdefault("phase_s", {})
    ctx.rule = ("histories of Process/Save/Cancel calls on one real ProposalProcessors: every sequence of length D over 11 calls "
                "(4 proposals incl. one failing, agreed and disagreeing ACCEPT voteproofs, Cancel), plus seeded random histories of "
                "2-4 goroutines x 2-4 calls over 7 proposals (ok / error / ignorable error / proposal not found) and voteproofs with "
                "matching, other-proposal, unknown new-block hashes and stale/future heights. non-trivial = history with a "
                "Process and a Save; distinct by event sequence. forced schedules: every maximal controller schedule of the "
                "lock-level specification with 4 calls over {Process P1, P2 (height 1), P3 (height 2), their agreed Saves, Cancel} "
                "(quick) / 5 calls over these and 4 calls over 12 calls incl. disagreeing majorities, a failing processor, a proposal "
                "that is not found (thorough); commands = start a call, open a processor gate, open a block-write gate")
    lock = LockTLC(ctx)
    lock.start()
    try:
        t0 = time.time()
        ctx.tlc("BlockSave", "BlockSave_mc_quick.cfg" if quick else "BlockSave_mc_thorough.cfg", timeout=1200)
        phase["mc"] = round(time.time() - t0, 1)

        total = unexp_total = saves_total = 0
        runs = [("exhaustive", ["--mode", "exhaustive", "--depth", 3 if quick else 4]),
                ("random", ["--mode", "random", "--num", 500 if quick else 6000])]
        for label, a in runs:
            t0 = time.time()
            tr = os.path.join(ctx.work, "%s.ndjson" % label)
            ctx.vh(["C11", "record"] + a + ["--out", tr], timeout=2400)
            events = core.read_ndjson(tr)
            if not events:
                raise core.MachineryError("the driver recorded nothing")
            for (first, evs) in histories(events):
                canon = [[e["a"], e.get("op"), e.get("f"), e.get("ah"), e.get("nb"), e.get("res"), e.get("h")] for e in evs]
                ops = set(e.get("op") for e in evs if e["a"] == "Call")
                ctx.case(canon, nontrivial="Process" in ops and "Save" in ops,
                         sample=short(evs, None, 30) if label == "random" else None)
            n, unexp, saves = validate_and_judge(ctx, label, events)
            ctx.traces += n
            total += n
            unexp_total += unexp
            saves_total += saves
            phase[label] = round(time.time() - t0, 1)
    except BaseException:
        lock.abort()
        raise
    forced_phase(ctx, phase, lock.collect(phase))
    ctx.extra["histories"] = {"validated": total, "not_explained_by_model": unexp_total, "writer_saves_observed": saves_total}
    if saves_total < 20:
        raise core.MachineryError("only %d BlockWriter.Save calls were observed - the drivers do not reach the save path" % saves_total)
    if unexp_total > total // 10:
        raise core.MachineryError("%d of %d recorded histories are not explained by BlockSave.tla - the model no longer "
                                  "describes the code (see evidence: unexplained_histories)" % (unexp_total, total))
    ctx.exhaustive = True
    ctx.assumptions = [
        "the block writer is a stub: its manifest is a function of the proposal, its Save is the observable",
        "inputs: an ACCEPT voteproof whose new-block hash is the manifest of a proposal has that proposal's height (a manifest hash "
        "binds its height); ProposalProcessors itself compares only the voteproof's height with previousSaved",
        "context cancellation of a running Process is not driven; cancellation = ProposalProcessors.Cancel()",
        "forced schedules: calls blocked on ProposalProcessors.l get it in arrival order (sync.Mutex hands over first-in first-out "
        "when nobody barges; the controller starts a call only when all others are blocked); barging is explored in the model only",
    ]
    ctx.extra["observations"] = [
        "ProposalProcessors.save sets previousSaved before the processor's Save: a Save that fails (other new block, cancelled "
        "processor) still makes every later Save for that height answer 'already saved' (liveness, outside the statement)",
        "any failing Save, also a stale one for an already saved height, cancels and drops the current processor",
    ]
