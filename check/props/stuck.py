"""STUCK - the ballot stuck resolver (isaac/states/ballot_stuck_resolver.go), the component that gets the nodes out
of the situation check/isaac.md records (two nodes waiting for ever for a third ACCEPT ballot).

  1. TLC on spec/StuckResolver.tla, the implementation-level model (NewPoint / Cancel / Clean; per accepted point
     one run: initial wait, ticker loop, find -> request -> [resolveAfter elapsed] findalone -> vote -> voteproof):
     with context checks before every action (the repaired algorithm) NoActionAfterCancel, CallbackOrder,
     OneResolution, OneLiveRun, NewestOnlyGrows hold (StuckResolver_mc_quick/_thorough.cfg); without them
     (StuckResolver_pinned.cfg) TLC finds the run that acts after it was cancelled; StuckResolver_strong.cfg
     shows that a LATER NewPoint at or below a cancelled point is accepted (strong reading, reported only).
  2. Real executions (binding B): vh-stuck drives the REAL DefaultBallotStuckResolver (timing parameters of a few
     hundred microseconds, harness callbacks): every outcome of the callbacks of a resolving tick; every API call
     (Cancel same/newer/older, NewPoint newer/same/older, Clean) made while the run is inside each callback of a
     gathering and of a resolving tick; the same while a tick is pending; from outside at six offsets round the
     initial wait; the same point again after Clean; seeded random scripts over 7 points. Events (NewPointCall,
     NewPoint, Cancel, Clean, Enter, Exit, Vp, End) are judged by spec/StuckResolverTrace.tla with the contract
     operators of StuckResolver.tla; order and presence only, no clock.
Verdict keys STUCK:<class>; see check/stuck.md."""
import bisect
import json
import os
import re

from vlib import core

HARD_EXACT = {
    "NewPoint-result", "action-for-unknown-point", "voteproof-for-unknown-point", "callbacks-overlap",
    "find-after-cancel", "request-after-cancel", "findalone-after-cancel", "vote-after-cancel", "vp-after-cancel",
    "voteproof-without-vote", "second-voteproof-of-run", "run-died-silently", "resolution-lost", "run-gone-in-callback",
}
HARD_PREFIX = ("order-", "action-after-run-ended-")


def is_hard(cls):
    return cls in HARD_EXACT or cls.startswith(HARD_PREFIX)


def split(events):
    out = []
    for i, e in enumerate(events):
        if e["a"] == "Reset":
            out.append((i + 1, []))
        out[-1][1].append(e)
    return out


def short(run):
    def s(e):
        return e["a"] + "(" + ",".join("%s" % e[k] for k in e if k not in ("a", "id")) + ")"
    return " ".join(s(e) for e in run[:60])


def crash_key(stderr):
    """a panic of the process: a verdict only if the first frame that is not the runtime's or the standard library's is the
    repository's (a panic in harness code is the machinery's: (None, text))"""
    m = re.search(r"^(panic:|fatal error:)(.*)$", stderr, re.M)
    if not m:
        return None, None
    for fm in re.finditer(r"^([A-Za-z0-9_./-]+?)\.[^\s/]*\(.*\)$", stderr[m.end():], re.M):
        path = fm.group(1)
        first = path.split("/")[0]
        if path.startswith("github.com/spikeekips/mitum/"):
            fn = fm.group(0).split("(")[0] if "(*" not in fm.group(0) else fm.group(0).rsplit("(", 1)[0]
            return "crash:" + fn.replace("github.com/spikeekips/mitum/", ""), m.group(0).strip()
        if first == "mitumverif":
            return None, m.group(0).strip()
        # runtime, panic, standard library (no dot in the first path element), other modules: keep looking
    return None, m.group(0).strip()


def validate(ctx, trace, by_id):
    events = core.read_ndjson(trace)
    ok, res, hw = ctx.tlc_validate_trace("StuckResolverTrace", "StuckResolverTrace.cfg", trace, timeout=1800)
    if not ok:
        raise core.MachineryError("StuckResolverTrace did not consume the trace: first unexplained event %s %s\n%s" % (
            hw, events[hw - 1] if hw and hw <= len(events) else "?", res.out[-3000:]))
    runs = split(events)
    starts = [f for f, _ in runs]
    soft = ctx.extra.setdefault("soft_classes", {})
    seen = set()
    for (cls, line, rest) in res.mismatches():
        k = bisect.bisect_right(starts, line) - 1
        first, run = runs[k]
        sid = run[0]["id"]
        if not is_hard(cls):
            soft[cls] = soft.get(cls, 0) + 1
            if cls == "run-at-or-below-cancelled-point":
                ctx.extra["strong_reading_reproduced"] = {
                    "scenario": sid, "events": short(run),
                    "what": "Cancel(p) keeps no record of p: a later NewPoint(q) with newest < q <= p starts a run for a point "
                            "at or below the cancelled one (strong reading of 'Cancel stops every later action for that and older points'; not judged)"}
            continue
        if (cls, sid) in seen:
            continue
        seen.add((cls, sid))
        ctx.violation(cls, "%s: event %d %s of scenario %s: %s" % (cls, line - first, json.dumps(events[line - 1]), sid, short(run)),
                      {"class": cls, "scenario": by_id.get(sid, {}).get("scenario"), "event": events[line - 1], "events": run})
    return events, runs


def model(ctx):
    ctx.tlc("StuckResolver", "StuckResolver_mc_quick.cfg", timeout=900)
    r = ctx.tlc("StuckResolver", "StuckResolver_pinned.cfg", allow_violation=True, timeout=600)
    ctx.extra["pinned_model"] = {"cfg": "StuckResolver_pinned.cfg", "violated": r.violated,
                                 "what": "without context checks between the actions of a tick a cancelled run acts again"}
    if r.violated != "NoActionAfterCancel":
        raise core.MachineryError("StuckResolver_pinned.cfg: expected NoActionAfterCancel violated, got %s" % r.violated)
    r = ctx.tlc("StuckResolver", "StuckResolver_strong.cfg", allow_violation=True, timeout=600)
    ctx.extra["strong_reading_model"] = {"cfg": "StuckResolver_strong.cfg", "violated": r.violated}
    ctx.extra["model_only_counterexamples"] = []
    if ctx.tier == "thorough":
        ctx.tlc("StuckResolver", "StuckResolver_mc_thorough.cfg", timeout=3000)


def run(ctx):
    ctx.level = "model_checking"
    model(ctx)
    trace = os.path.join(ctx.work, "trace.ndjson")
    scen = os.path.join(ctx.work, "scen.ndjson")
    p = ctx.vh(["STUCK", "batch", "--tier", ctx.tier, "--seed", ctx.seed, "--out", trace, "--scen", scen], timeout=2400, check=False)
    if p.returncode != 0:
        key, what = crash_key(p.stderr)
        if key is None:
            raise core.MachineryError("vh STUCK batch exited %d:\n%s" % (p.returncode, p.stderr[-4000:]))
        ctx.violation(key, "the process running the real resolver crashed: %s" % what, {"stderr": p.stderr[-6000:]})
        return
    scens = core.read_ndjson(scen)
    by_id = {s["id"]: s for s in scens}
    timeouts = [s["id"] for s in scens if s["status"] != "ended"]
    if timeouts:
        raise core.MachineryError("scenarios did not end (a goroutine of the resolver stayed alive for 15 s): %s" % timeouts[:5])
    events, runs = validate(ctx, trace, by_id)
    ctx.rule = ("one case = one scenario (timing parameters, start calls, per point the scripted answers of the callbacks and the "
                "API calls made inside them) on a fresh real resolver; non-trivial = at least one callback was called; distinct "
                "by scenario description")
    classes = {}
    for s in scens:
        classes[s["class"]] = classes.get(s["class"], 0) + 1
    nvp = 0
    for first, run_ in runs:
        sc = by_id[run_[0]["id"]]["scenario"]
        canon = {k: v for k, v in sc.items() if k not in ("id", "class")}
        nvp += sum(1 for e in run_ if e["a"] == "Vp")
        ctx.case(canon, nontrivial=any(e["a"] == "Enter" for e in run_),
                 sample={"id": run_[0]["id"], "events": len(run_)})
    ctx.traces += len(runs)
    ctx.extra["scenarios"] = len(scens)
    ctx.extra["scenario_classes"] = classes
    ctx.extra["events_validated"] = len(events)
    ctx.extra["stuck_voteproofs_handed_out"] = nvp
    ctx.exhaustive = False
    ctx.assumptions = [
        "the three callbacks are the harness's (scripted answers); the API calls are serialised by the harness",
        "'after Cancel' is judged only when an Exit event of the run lies between the return of the cancelling call and the "
        "run's next action (a fact under every schedule); other late actions are counted in soft_classes (unanchored-*)",
        "timing parameters are 100-700 microseconds; no event is judged by its time",
    ]


def replay(ctx, path):
    d = json.load(open(path))
    sc = d["case"].get("scenario")
    if not sc:
        raise core.MachineryError("replay file has no scenario")
    p = os.path.join(ctx.work, "replay.json")
    json.dump(sc, open(p, "w"))
    out = os.path.join(ctx.work, "replay.ndjson")
    r = ctx.vh(["STUCK", "one", "--in", p, "--out", out], timeout=120, check=False)
    if r.returncode != 0:
        key, what = crash_key(r.stderr)
        if key is None:
            raise core.MachineryError("vh STUCK one exited %d:\n%s" % (r.returncode, r.stderr[-3000:]))
        ctx.violation(key, "the process running the real resolver crashed: %s" % what, {"scenario": sc, "stderr": r.stderr[-6000:]})
        return
    validate(ctx, out, {sc["id"]: {"scenario": sc}})
    ctx.traces += 1
