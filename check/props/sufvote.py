"""SUFVOTE - collecting expel votes (isaac.SuffrageVoting over TempPool). Spec: SuffrageVoting.tla.

Binding A. TLC (Level = "abstract") prints every call sequence of the exhaustive worlds and seeded
random ones of the larger worlds ("CASE" lines: Vote(fact, signers) with the answer the contract
demands and the signers it has collected for the fact afterwards; Find(height) with the contract's
pool, the size of the biggest valid combination and the number of biggest combinations). Every
sequence is performed on a real isaac.SuffrageVoting over a real TempPool with really signed
operations (harness/internal/sufvote); this file judges every answer, every callback value, the pool
after every call and every Find result against the statement, and compares the Find results of all
sequences that brought the same votes in another order / batching.

The transcription of the pinned code (Level = "impl") is run once per Impl* invariant: what TLC
finds there is listed as a candidate; verdicts come from the replays only.
"""
import json
import os
import re
import time

from vlib import core

MOD = "SuffrageVoting"
IMPL_INVS = ["ImplVoteAgrees", "ImplPerFact", "ImplNothingLost", "ImplFindSound", "ImplFindComplete"]


# ---------------------------------------------------------------- TLA+ values -> python
def tla_json(s):
    """tuples, sets, strings, ints and booleans only: <<..>> and {..} both become lists"""
    s = s.replace("<<", "[").replace(">>", "]").replace("{", "[").replace("}", "]")
    s = re.sub(r"\bTRUE\b", "true", s)
    s = re.sub(r"\bFALSE\b", "false", s)
    return json.loads(s)


def printed(out, tag):
    pre = '"%s ' % tag
    vals = []
    for line in out.splitlines():
        if line.startswith(pre) and line.endswith('"'):
            body = line[len(pre):-1].replace('\\"', '"').replace("\\\\", "\\")
            try:
                vals.append(tla_json(body))
            except ValueError as e:
                raise core.MachineryError("cannot parse %s line %r: %s" % (tag, line[:200], e))
    return vals


def fkey(f):
    return "%s/%d/%d" % (f[0], f[1], f[2])


# ---------------------------------------------------------------- running the model
def run_model(ctx, cfg, simulate=None, timeout=1500):
    args = ["-fpmem", "0.1"]
    kw = {}
    if simulate:
        num, depth = simulate
        args += ["-simulate", "num=%d" % num, "-depth", depth, "-seed", ctx.seed]
        kw["workers"] = 1
    r = ctx.tlc(MOD, cfg, args=args, timeout=timeout, count=not simulate, java_opts=["-Xmx6g"], **kw)
    ctx.extra.setdefault("tlc_s", {})[cfg] = round(r.wall, 1)
    worlds = printed(r.out, "WORLD")
    if not worlds:
        raise core.MachineryError("TLC %s printed no WORLD line:\n%s" % (cfg, core._tlc_tail(r.out)))
    member, outsider, local, instate, th = worlds[0]
    world = {"member": sorted(member), "outsider": sorted(outsider), "local": local,
             "instate": instate, "th": th, "cfg": cfg}
    cases = printed(r.out, "CASE")
    if not cases:
        raise core.MachineryError("TLC %s printed no CASE line" % cfg)
    if simulate:
        n = sum(len(c) + 1 for c in cases)
        ctx.states += n
        ctx.transitions += n
    ctx.extra.setdefault("scripts", {})[cfg] = len(cases)
    return world, cases


def run_impl(ctx):
    """the transcription of the pinned code against the contract, one invariant at a time"""
    d = ctx._stage_spec()
    base = open(os.path.join(d, MOD + "_impl.cfg")).read()
    found = {}
    for inv in (["ImplAgrees"] if ctx.tier == "quick" else IMPL_INVS):
        name = "%s_impl_%s.cfg" % (MOD, inv)
        s, n = re.subn(r"(?m)^INVARIANTS .*$", "INVARIANTS TypeOK " + inv, base)
        if n != 1:
            raise core.MachineryError("no INVARIANTS line in the impl cfg")
        if ctx.tier == "quick":
            s = re.sub(r"MaxCalls = \d+", "MaxCalls = 4", s)
        open(os.path.join(d, name), "w").write(s)
        r = ctx.tlc(MOD, name, args=["-fpmem", "0.1"], timeout=900, allow_violation=True, java_opts=["-Xmx6g"])
        found[inv] = {"violated": bool(r.violated), "states": r.distinct, "wall_s": round(r.wall, 1)}
        if r.violated:
            tail = [l for l in r.out.splitlines() if l.startswith(("/\\ last", "/\\ ipool", "/\\ pool", "/\\ ihave", "/\\ have"))]
            ctx.extra.setdefault("model_only_counterexamples", []).append(
                {"cfg": name, "violated": inv, "last_state": tail[-5:]})
    ctx.extra["impl_transcription"] = found
    return found


# ---------------------------------------------------------------- judging one sequence
class Judge:
    def __init__(self, ctx, world):
        self.ctx = ctx
        self.w = world
        self.member = set(world["member"])
        self.local = world["local"]
        self.instate = set(fkey(f) for f in world["instate"])
        self.th = world["th"]
        self.groups = {}   # (h, live pool) -> {result: (case index, context)}
        self.stats = {"votes": 0, "finds": 0, "finds_nonempty": 0, "merged_callbacks": 0, "max_found": 0,
                      "strong_missed_foreign_signer": 0}

    def signth(self, k):
        return self.th[k - 1] if 1 <= k <= len(self.th) else 10 ** 9

    def report(self, seen, key, what, case):
        if key in seen:
            return
        seen.add(key)
        self.ctx.violation(key, what, case)

    def judge(self, idx, calls, res):
        ctx = self.ctx
        seen = set()
        apool = {}          # the contract's pool: fact key -> (fact, set of signers)
        maybe_dropped = set()   # facts against non-members that were in the pool at a Find
        overlap = False     # two facts of one node with overlapping ranges have been in the pool (sticky)
        steps = res["steps"]
        if len(steps) != len(calls):
            raise core.MachineryError("case %d: %d steps answered for %d calls" % (idx, len(steps), len(calls)))
        trail = []
        for c, st in zip(calls, steps):
            case = {"world": self.w, "calls": trail + [c], "got": st}
            if st.get("panic"):
                self.report(seen, "crash:%s" % ("Vote" if c[0] == "v" else "Find"), st["panic"], case)
                return
            if st.get("err"):
                self.report(seen, "error:%s" % ("Vote" if c[0] == "v" else "Find"), st["err"], case)
                return
            if c[0] == "v":
                self.stats["votes"] += 1
                _, f, S, want, after = c
                k = fkey(f)
                # does the pool's (start, node) lookup have another fact of the node to find?
                for g, _s in apool.values():
                    if g[0] == f[0] and fkey(g) != k and not (g[2] < f[1] or f[2] < g[1]):
                        overlap = True
                ctxs = ";another-fact-of-the-node-overlaps" if overlap else ""
                if want:
                    apool[k] = (f, set(after))
                if st["voted"] and not want and k in maybe_dropped:
                    pass    # an operation against a non-member may have been removed by a Find: learnt again
                elif st["voted"] != want:
                    if want:
                        key = "vote:new-signature-refused"
                    elif f[0] == self.local:
                        key = "vote:expel-of-local-accepted"
                    elif k in self.instate:
                        key = "vote:in-state-accepted"
                    else:
                        key = "vote:known-signatures-voted-again"
                    self.report(seen, key + ctxs, "Vote(%s signed by %s) = %s, the contract says %s" % (
                        k, sorted(S), st["voted"], want), case)
                cb = st.get("cb") or []
                if st["voted"]:
                    if len(cb) != 1:
                        self.report(seen, "vote:callback-count" + ctxs, "voted but %d callbacks" % len(cb), case)
                    elif want:
                        o = cb[0]
                        if len(o["s"]) > len(S):
                            self.stats["merged_callbacks"] += 1
                        if fkey(o["f"]) != k:
                            self.report(seen, "vote:callback-of-another-fact" + ctxs,
                                        "Vote(%s) handed the callback an operation of fact %s" % (k, fkey(o["f"])), case)
                        elif not o["valid"]:
                            self.report(seen, "vote:callback-invalid-operation" + ctxs,
                                        "the operation given to the voted callback (broadcast) is not valid: %s" % o.get("why"), case)
                        elif k in maybe_dropped:
                            pass    # may have been removed by a Find and learnt anew
                        elif set(o["s"]) != apool[k][1] or len(set(o["s"])) != len(o["s"]):
                            self.report(seen, "vote:callback-signers" + ctxs, "callback operation of %s signed by %s, collected %s" % (
                                k, o["s"], sorted(apool[k][1])), case)
                elif cb:
                    self.report(seen, "vote:callback-without-vote" + ctxs, "not voted but the callback was called", case)
            else:
                self.stats["finds"] += 1
                _, h, maxk, maxkall, snap, nbest = c
                snapd = dict((fkey(g), set(s)) for g, s in snap)
                mine = dict((k2, v[1]) for k2, v in apool.items())
                if snapd != mine:
                    raise core.MachineryError("case %d: the driver's copy of the contract's pool differs from TLC's: %s / %s" % (idx, mine, snapd))
                self.judge_find(seen, idx, case, h, maxk, maxkall, nbest, apool, overlap, st)
                maybe_dropped |= set(k2 for k2, v in apool.items() if v[0][0] not in self.member)
                for k2 in [k2 for k2, v in apool.items() if v[0][2] < h]:
                    del apool[k2]
            self.judge_pool(seen, case, apool, overlap, st["stored"])
            trail.append(c)

    def judge_pool(self, seen, case, apool, overlap, stored):
        """signatures are merged per fact, without duplicates, nothing lost, nothing foreign to the fact"""
        ctxs = ";another-fact-of-the-node-overlaps" if overlap else ""
        byk = dict((fkey(o["f"]), o) for o in stored)
        for k, (f, signers) in apool.items():
            if f[0] not in self.member:
                continue        # operations against non-members may be dropped at any Find
            o = byk.get(k)
            if o is None:
                self.report(seen, "pool:operation-lost" + ctxs, "operation of %s collected but not in the pool" % k, case)
                continue
            if len(set(o["s"])) != len(o["s"]):
                self.report(seen, "pool:duplicate-signer" + ctxs, "%s stored with signers %s" % (k, o["s"]), case)
            extra = set(o["s"]) - signers
            lost = signers - set(o["s"])
            if extra:
                self.report(seen, "pool:signature-of-another-fact" + ctxs,
                            "%s stored with signatures of %s who never signed it (valid=%s: %s)" % (
                                k, sorted(extra), o["valid"], o.get("why", "")), case)
            elif not o["valid"]:
                self.report(seen, "pool:invalid-operation" + ctxs, "%s stored is not valid: %s" % (k, o.get("why")), case)
            if lost:
                self.report(seen, "pool:signature-lost" + ctxs, "%s: signatures of %s arrived and are not stored" % (k, sorted(lost)), case)
        for k, o in byk.items():
            if k in apool:
                continue
            if o["f"][0] == self.local:
                self.report(seen, "pool:expel-of-local-stored", "%s stored" % k, case)
            elif k in self.instate:
                self.report(seen, "pool:in-state-stored", "%s stored" % k, case)
            else:
                self.report(seen, "pool:unexpected-operation" + ctxs, "%s stored, never collected or already expired" % k, case)

    def judge_find(self, seen, idx, case, h, maxk, maxkall, nbest, apool, overlap, st):
        ops = st.get("ops") or []
        ctxs = ";another-fact-of-the-node-overlaps" if overlap else ""
        targets = [o["f"][0] for o in ops]
        tset = set(targets)
        if ops:
            self.stats["finds_nonempty"] += 1
            self.stats["max_found"] = max(self.stats["max_found"], len(ops))
        if len(tset) != len(targets):
            self.report(seen, "find:two-operations-for-one-node" + ctxs, "Find(%d) returned operations for %s" % (h, targets), case)
        need = self.signth(len(tset))
        for o in ops:
            f = o["f"]
            k = fkey(f)
            if f[0] == self.local:
                self.report(seen, "find:expel-of-local", "Find(%d) returned %s" % (h, k), case)
            if f[0] not in self.member:
                self.report(seen, "find:target-not-member", "Find(%d) returned %s" % (h, k), case)
            if f[2] < h:
                self.report(seen, "find:expired", "Find(%d) returned %s" % (h, k), case)
            if f[1] > h:
                self.report(seen, "find:not-started", "Find(%d) returned %s" % (h, k), case)
            if k in self.instate:
                self.report(seen, "find:in-state", "Find(%d) returned %s" % (h, k), case)
            coll = apool.get(k, (f, set()))[1]
            s = o["s"]
            if len(set(s)) != len(s):
                self.report(seen, "find:duplicate-signer" + ctxs, "%s returned with signers %s" % (k, s), case)
            if set(s) - self.member:
                self.report(seen, "find:foreign-signer", "%s returned with signers %s" % (k, s), case)
            if set(s) & tset:
                self.report(seen, "find:signature-of-expelled-node", "%s returned with signers %s, expelled %s" % (k, s, sorted(tset)), case)
            if set(s) - coll:
                self.report(seen, "find:signature-of-another-fact" + ctxs,
                            "Find(%d) returned %s with signatures of %s who never signed that fact (IsValid: %s)" % (
                                h, k, sorted(set(s) - coll), o.get("why") or "ok"), case)
            elif not o["valid"]:
                self.report(seen, "find:invalid-operation" + ctxs, "Find(%d) returned %s, not valid: %s" % (h, k, o.get("why")), case)
            genuine = (set(s) & coll & self.member) - tset
            if len(genuine) < need:
                self.report(seen, "find:under-threshold" + ctxs,
                            "Find(%d) returned %s with %d signatures of remaining members that signed it; %d expelled of %d need %d" % (
                                h, k, len(genuine), len(tset), len(self.member), need), case)
        live = [(v[0], v[1]) for v in apool.values() if v[0][1] <= h <= v[0][2]]
        unknown_live = any(f[0] not in self.member for f, _ in live)
        if len(ops) < maxk:
            why = ";behind-an-operation-against-a-non-member" if unknown_live else ctxs
            if not why and ops and self.inclusion_maximal(live, [tuple(o["f"]) for o in ops]):
                # nothing can be added to what was returned, but a bigger combination exists
                why = ";smaller-combination-earlier-in-bitmask-order"
            self.report(seen, "find:missed" + why, "Find(%d) returned %d operations, a valid combination of %d exists (pool %s)" % (
                h, len(ops), maxk, sorted((fkey(f), sorted(s)) for f, s in live)), case)
        elif len(ops) < maxkall:
            self.stats["strong_missed_foreign_signer"] += 1
        # the same votes in another order / batching must give the same answer
        if not unknown_live and not overlap:
            gk = (h, tuple(sorted((fkey(f), tuple(sorted(s))) for f, s in live)))
            rk = tuple(sorted((fkey(o["f"]), tuple(sorted(o["s"]))) for o in ops))
            g = self.groups.setdefault(gk, {})
            if rk not in g:
                g[rk] = (idx, case, nbest)

    def valid_combo(self, pool, R):
        """ValidCombo of the specification over the live pool {fact tuple: signers}"""
        targets = set(f[0] for f in R)
        if not R or len(targets) != len(R):
            return False
        need = self.signth(len(R))
        for f in R:
            if f[0] not in self.member or f[0] == self.local or f not in pool:
                return False
            if len((pool[f] & self.member) - targets) < need:
                return False
        return True

    def inclusion_maximal(self, live, R):
        pool = dict((tuple(f), s) for f, s in live)
        if not self.valid_combo(pool, R):
            return False
        clean = [f for f in pool if pool[f] <= self.member and f not in R]
        return not any(self.valid_combo(pool, R + [g]) for g in clean)

    def order_independence(self):
        n = 0
        for gk, g in self.groups.items():
            n += 1
            if len(g) < 2:
                continue
            rs = sorted(g)
            nbest = g[rs[0]][2]
            key = "find:order-dependent" + (";several-biggest-combinations" if nbest > 1 else "")
            self.ctx.violation(key, "Find(%d) over the same collected votes %s answered %s" % (
                gk[0], list(gk[1]), " / ".join(str([r[0] for r in rk]) for rk in rs)),
                {"world": self.w, "a": g[rs[0]][1], "b": g[rs[1]][1]})
        return n


def to_calls(c):
    out = []
    for e in c:
        if e[0] == "v":
            out.append({"a": "v", "f": e[1], "s": sorted(e[2])})
        else:
            out.append({"a": "f", "h": e[1]})
    return out


def replay_world(ctx, world, cases, tag):
    maxh = 1
    for c in cases:
        for e in c:
            maxh = max(maxh, e[1][2] if e[0] == "v" else e[1])
    inp = os.path.join(ctx.work, "cases-%s.ndjson" % tag)
    res = os.path.join(ctx.work, "res-%s.ndjson" % tag)
    rows = [{"world": {"member": world["member"], "outsider": world["outsider"], "local": world["local"],
                       "instate": world["instate"], "maxh": maxh}}]
    rows += [{"i": i, "calls": to_calls(c)} for i, c in enumerate(cases)]
    core.write_ndjson(inp, rows)
    t0 = time.time()
    ctx.vh(["SUFVOTE", "replay", "--in", inp, "--out", res], timeout=3000)
    t1 = time.time()
    out = core.read_ndjson(res)
    if len(out) != len(cases):
        raise core.MachineryError("harness answered %d of %d cases" % (len(out), len(cases)))
    j = Judge(ctx, world)
    for i, (c, r) in enumerate(zip(cases, out)):
        if r["i"] != i:
            raise core.MachineryError("harness results out of order")
        j.judge(i, c, r)
        found = [len(s.get("ops") or []) for s in r["steps"] if s["a"] == "f"]
        ctx.case([tag, c], nontrivial=any(e[0] == "f" for e in c),
                 sample={"world": tag, "calls": to_calls(c), "found": found} if any(found) else None)
        ctx.traces += 1
    groups = j.order_independence()
    st = dict(j.stats)
    st["vote_sets_compared_across_orders"] = groups
    st["replay_s"] = round(t1 - t0, 1)
    st["judge_s"] = round(time.time() - t1, 1)
    ctx.extra.setdefault("replay", {})[tag] = st
    os.remove(inp)
    os.remove(res)
    return j


def run(ctx):
    quick = ctx.tier == "quick"
    ctx.exhaustive = True
    ctx.rule = ("every call sequence of MaxCalls calls over the operations / heights of the exhaustive worlds "
                "(N=4: two overlapping facts of one node, a second and third target, a non-member target, the local "
                "node as target, a foreign signer, the target's own signature, in-state fact; N=7 tie world) plus "
                "seeded -simulate sequences of the N=7 and N=10 worlds; non-trivial = the sequence calls Find; "
                "distinct by (world, call sequence)")
    plan = [("SuffrageVoting_mc_quick.cfg" if quick else "SuffrageVoting_mc_thorough.cfg", None, "n4"),
            ("SuffrageVoting_tie.cfg", None, "tie7")]
    if not quick:
        plan.append(("SuffrageVoting_mc_quick.cfg", None, "n4q"))
    plan.append(("SuffrageVoting_sim.cfg", (150 if quick else 6000, 14), "sim7"))
    plan.append(("SuffrageVoting_sim10.cfg", (100 if quick else 3000, 16), "sim10"))
    for cfg, sim, tag in plan:
        world, cases = run_model(ctx, cfg, simulate=sim)
        replay_world(ctx, world, cases, tag)
    run_impl(ctx)
    ctx.assumptions = [
        "operations arrive well-formed (IsValid) as the network handler / ballot box deliver them; a signature by a "
        "foreign KEY under a member's address is the caller's check (IsValidExpelWithSuffrage), not modelled",
        "one suffrage per world; Find heights arbitrary (not only increasing)",
        "an operation with a signer outside the suffrage may be dropped as a whole (weak reading); counted as "
        "strong_missed_foreign_signer only",
        "operations against non-members may be removed from the pool at any Find",
    ]
