"""C35 - access control (launch/acl.go). Spec: ACL.tla. Binding A.

Every distinct table of the exhaustive configs (all tables are initial states) and every
state of seeded -simulate walks (a walk = one real ACL object re-imported after every
single-cell change) is loaded into a real launch.ACL through YAMLACL.Import; every query
(user x scope x required) is put to ACL.Allow and to the NewACLAllowFunc wrapper; the
boolean decision must be the one ACL.tla computes from the statement. mode "perm": the
text form of every permission 1..79 (String / MarshalText / UnmarshalText)."""
import os
from vlib import core

CHAIN = ["own", "user-default", "default-user-scope", "default-default"]


def decider(step, q):
    """which entry of the chain decides the query in the specification's table"""
    u, s = q[0], q[1]
    if u == "super":
        return "superuser"
    cells = {(c[0], c[1]): c[2] for c in step["cells"]}
    chain = [(u, s), (u, "_default"), ("_default", s), ("_default", "_default")]
    for name, c in zip(CHAIN, chain):
        if c in cells:
            return name + ("=prohibit" if cells[c] == 1 else "")
    return "none"


def classify(step, row):
    f = row["fails"][0]
    if step["a"] == "perm":
        p = step["p"]
        return "perm-text(%s;%s)" % (f["entry"].split("(")[0], "x" if p == 1 else "s" if p == 79 else "o"), f
    if f["entry"] == "YAMLACL.Import":
        return "import-panic", f
    if row.get("fresh_ok") is True:
        return "stale-after-reimport", f
    if f["got"].startswith("panic"):
        return "panic(%s)" % f["entry"], f
    want = f["want"].split(" ")[0]
    return "decision(%s;decider=%s;want=%s)" % (f["entry"], decider(step, f["q"]), want), f


def run(ctx):
    quick = ctx.tier == "quick"
    cfgs = ["ACL_mc_quick.cfg"] if quick else ["ACL_mc_thorough.cfg", "ACL_mc_thorough2.cfg"]
    steps = []
    for cfg in cfgs:
        r, st = ctx.tlc_dump_steps("ACL", cfg, timeout=1500)
        if len(st) != r.distinct:
            raise core.MachineryError("%s: %d states but %d steps dumped (a state lost its step)" % (cfg, r.distinct, len(st)))
        for s in st:
            s["new"] = 1
        steps.extend(st)
    nexh = len(steps)
    ctx.exhaustive = True
    _, behs = ctx.tlc_simulate("ACL", "ACL_sim.cfg", num=100 if quick else 1000, depth=10 if quick else 20)
    for b in behs:
        b[0]["new"] = 1
        steps.extend(b)
        ctx.traces += 1
    ctx.rule = ("every table of %s (cells x perms incl. absent; all are initial states) and every state of %d -simulate "
                "walks of ACL_sim.cfg, each with every query user x scope x required; non-trivial = table not empty; "
                "distinct by (cells, perm)" % (" + ".join(cfgs), len(behs)))
    cases = os.path.join(ctx.work, "cases.ndjson")
    core.write_ndjson(cases, steps)
    res = os.path.join(ctx.work, "res.ndjson")
    ctx.vh(["C35", "replay", "--in", cases, "--out", res], timeout=1500)
    rows = core.read_ndjson(res)
    if len(rows) != len(steps):
        raise core.MachineryError("harness answered %d of %d steps" % (len(rows), len(steps)))
    calls = adiff = nq = overridden = notupd = 0
    notes = []
    for st, row in zip(steps, rows):
        calls += row["calls"]
        adiff += row.get("assigned_diff", 0)
        notes.extend(row.get("notes", []))
        if st["a"] == "table":
            nq += len(st["queries"])
            canon = ["t", sorted(map(tuple, st["cells"]))]
            ctx.case(canon, nontrivial=len(st["cells"]) > 0,
                     sample={"cells": st["cells"], "queries": len(st["queries"]), "ok": row["ok"]})
            if row.get("updated") is False and st.get("new") != 1:
                notupd += 1
            # strong reading of "an explicit prohibit always denies" (report only): allowed although a
            # lower-precedence entry of the chain is prohibit
            cells = {(c[0], c[1]): c[2] for c in st["cells"]}
            for q in st["queries"]:
                if q[3] == 1 and q[0] != "super":
                    ch = [(q[0], q[1]), (q[0], "_default"), ("_default", q[1]), ("_default", "_default")]
                    if any(cells.get(c) == 1 for c in ch):
                        overridden += 1
        else:
            ctx.case(["p", st["p"]], nontrivial=True, sample={"perm": st["p"], "text": "".join(st["text"]), "ok": row["ok"]})
        if not row["ok"]:
            key, f = classify(st, row)
            ctx.violation(key, "%s %s = %s, statement says %s (table %s)" % (
                f["entry"], f.get("q", st.get("p")), f["got"][:200], f["want"], st.get("cells")),
                {"step": st, "result": row})
    ctx.traces += nexh
    ctx.extra["real_calls"] = calls
    ctx.extra["queries"] = nq
    ctx.extra["exhaustive_tables"] = nexh
    ctx.extra["walk_steps"] = len(steps) - nexh
    ctx.extra["assigned_perm_differs_from_deciding_entry"] = adiff
    ctx.extra["walk_imports_reporting_not_updated"] = notupd
    ctx.extra["strong_reading_allowed_despite_lower_precedence_prohibit"] = overridden
    ctx.extra["text_to_perm_notes"] = sorted(set(notes))
    ctx.assumptions = [
        "users are real MPublickey strings, scopes real ACLScope values; the table reaches the ACL only through YAMLACL.Import",
        "required ranges over allow permissions (2..79); required = prohibit (refused by the code) and required = 0 are not requests a handler makes",
        "'an explicit prohibit always denies' is read as: the deciding entry is prohibit; a prohibit at a lower-precedence "
        "entry overridden by a higher one is counted in strong_reading_* only",
        "the first return value of Allow (assigned permission) is not constrained by the statement; differences are counted only",
        "text -> permission for texts no permission prints to (e.g. 256 x 'o' wraps to prohibit) is reported in text_to_perm_notes only",
    ]


def replay(ctx, path):
    """re-run the failing step of a replay file on the current tree (fresh ACL)"""
    import json
    st = json.load(open(path))["case"]["step"]
    st["new"] = 1
    cases, res = os.path.join(ctx.work, "cases.ndjson"), os.path.join(ctx.work, "res.ndjson")
    core.write_ndjson(cases, [st])
    ctx.vh(["C35", "replay", "--in", cases, "--out", res])
    row = core.read_ndjson(res)[0]
    ctx.traces += 1
    ctx.case(["replay", st.get("cells"), st.get("p")], nontrivial=True, sample={"step": st, "result": row})
    if not row["ok"]:
        key, f = classify(st, row)
        ctx.violation(key, "%s %s = %s, statement says %s (table %s)" % (
            f["entry"], f.get("q", st.get("p")), f["got"][:200], f["want"], st.get("cells")), {"step": st, "result": row})
