#!/bin/sh
# trymut.sh <MUT-ID> [CHECK-ID ...] : run quick checks against the scratch tree /tmp/mut/<MUT-ID>
m=$1; shift; [ $# -eq 0 ] && set -- $m
cd /verif
for c in "$@"; do
  out=$(VERIF_REPO=/tmp/mut/$m timeout 1800 python3 check/check.py $c --tier quick 2>&1); rc=$?
  echo "mutation $m check $c rc=$rc :: $(echo "$out" | grep '^VIOLATION' | head -2 | cut -c1-260)"
done
