#!/usr/bin/env python3
"""keepseed.py <ID> <worktree> <name> <caught:yes|no> "<what I ran>" "<check output tail>"
Store a confirmed seeded change under /verif/seeded/<name>/ (patch.diff, demonstration, meta.json)."""
import json, os, shutil, sys
pid, wt, name, caught, ran, tail = sys.argv[1:7]
out = wt + "-out"
dst = os.path.join("/verif/seeded", name)
os.makedirs(dst, exist_ok=True)
for f in os.listdir(out):
    p = os.path.join(out, f)
    if os.path.isfile(p) and os.path.getsize(p) < 2_000_000:
        shutil.copy(p, os.path.join(dst, f))
meta = {}
mp = os.path.join(dst, "meta.json")
if os.path.exists(mp):
    try:
        meta = json.load(open(mp))
    except Exception:
        meta = {"raw": open(mp).read()}
meta["property"] = pid
meta["verified_by_coordinator"] = {"caught_by_check": caught == "yes", "ran": ran, "check_output_tail": tail}
json.dump(meta, open(mp, "w"), indent=1)
print("kept", dst, os.listdir(dst))
