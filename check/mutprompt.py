#!/usr/bin/env python3
"""Print the prompt for a fresh 'seeded change' sub-agent: only the property text and its worktree."""
import json, sys
pid, wt = sys.argv[1], sys.argv[2]
variant = sys.argv[3] if len(sys.argv) > 3 else ""
p = [json.loads(l) for l in open('/verif/properties.jsonl') if json.loads(l)['id'] == pid][0]
print(f"""You are given a scratch git worktree of the Go repository spikeekips/mitum (module github.com/spikeekips/mitum, a blockchain node framework implementing the ISAAC voting consensus) at {wt}. Work ONLY inside {wt} and {wt}-out (create it). Do not read or write /verif or /repo. Never use `git stash`, `git checkout <branch>`, `git reset` or `git worktree` (the stash and refs are shared with other people's worktrees); to compare with/without your change use `git diff > file`, `git apply -R file`, `git apply file`. The sandbox is offline; for every Go command use: export GOFLAGS=-mod=mod GOPROXY=off GOSUMDB=off GOTOOLCHAIN=local

Here is a semantic property the code base is supposed to satisfy:

  id: {p['id']}
  title: {p['title']}
  statement: {p['statement']}
  quantified over: {p['quantifier']['text']}
  code it is anchored in: {', '.join(p['anchors']['files'])}

Your task: make ONE realistic change to the production code of the repository (not to tests or test fixtures, i.e. not to *_test.go, test_*.go, tests.go) that BREAKS this property while the repository still compiles (`go build ./...` and `go vet`-free build of tests) and its existing tests still pass. The kind of change wanted is one a developer could plausibly make (an optimisation, a refactoring, a 'simplification', an off-by-one, a dropped or reordered check, a lock narrowed, a cache added) and that needs something SPECIFIC to manifest — a particular interleaving, a crash or fault at a particular point, a multi-step sequence of operations, an unusual input, or two cooperating sites that each look fine alone — NOT one that ordinary use or the first simple call would expose at once. {variant}

Existing tests that must still pass with your change:
  - the baseline: `cd {wt} && go test -vet=off -count=1 ./util/...` (packages outside util/ have no tests that build without the `test` build tag; five util tests — TestJobWorker, TestBatchWork, TestErrCallbackJobWorker, TestContextDaemon, TestRetry — fail in this sandbox with or without your change; ignore those five)
  - and the tagged tests of every package you touch: `go test -tags test -count=1 ./<pkg>/` (run them before and after; a test that fails before your change does not count).

Deliver in {wt}-out/:
  1. patch.diff — `git -C {wt} diff` of your change (production code only).
  2. a demonstration: a Go test file (say which package directory it must be copied into and the exact `go test -tags test -run ...` command) or a small main program, that FAILS (or prints a clear 'PROPERTY VIOLATED' line and exits non-zero) with your change applied and PASSES without it. The demonstration must show the property being violated as stated above (not merely that the code differs). Verify both directions yourself.
  3. meta.json — {{"property": "{p['id']}", "summary": "<what the change does>", "needs": "<what specific input/interleaving/sequence/fault is needed for it to manifest>", "files_changed": [...], "demo": "<how to run the demonstration>", "tests_run": ["<commands you ran and their outcome>"]}}

Leave the worktree with your change applied. Final message: a short summary of the change, why existing tests do not catch it, and how the demonstration shows the violation.""")
