#!/bin/sh
# Run once in /verif after a fresh restore, offline. Builds the conformance harness binaries
# (one per property) from files on disk and parses every specification. Problems with a single
# property are reported but do not fail the setup: every check rebuilds its own binary and
# fails on its own (exit 2) if its specification or harness is broken.
cd "$(dirname "$0")/.."
export GOFLAGS=-mod=mod GOPROXY=off GOSUMDB=off GOTOOLCHAIN=local
mkdir -p harness/bin .work evidence replays
[ -f harness/go.sum ] || cp /repo/go.sum harness/go.sum
command -v go >/dev/null || { echo "go toolchain missing"; exit 1; }
command -v java >/dev/null || { echo "java missing"; exit 1; }
(cd harness && for d in cmd/*/; do id=$(basename "$d"); go build -tags "verif test" -o "bin/vh-$id" "./cmd/$id" || echo "WARNING: harness build failed for $id"; done)
tmp=$(mktemp -d)
cp spec/*.tla "$tmp"/
for f in "$tmp"/*.tla; do
  (cd "$tmp" && java -DTLA-Library=/opt/veriftools/tlapm/lib/tlapm/stdlib -cp /opt/veriftools/tla/tla2tools.jar:/opt/veriftools/tla/CommunityModules-deps.jar tla2sany.SANY "$(basename "$f")" >"$f.sany" 2>&1) || { echo "WARNING: SANY failed: $(basename "$f")"; grep -A3 -i "error" "$f.sany" | head -12; }
done
rm -rf "$tmp"
exit 0
