#!/bin/sh
# Run once in /verif after a fresh restore, offline. Builds the conformance harness from
# files on disk and parses every specification.
set -e
cd "$(dirname "$0")/.."
export GOFLAGS=-mod=mod GOPROXY=off GOSUMDB=off GOTOOLCHAIN=local
mkdir -p harness/bin .work evidence replays
[ -f harness/go.sum ] || cp /repo/go.sum harness/go.sum
(cd harness && for d in cmd/*/; do id=$(basename "$d"); go build -tags "verif test" -o "bin/vh-$id" "./cmd/$id" || exit 1; done)
rc=0
tmp=$(mktemp -d)
cp spec/*.tla "$tmp"/
for f in "$tmp"/*.tla; do
  (cd "$tmp" && java -DTLA-Library=/opt/veriftools/tlapm/lib/tlapm/stdlib -cp /opt/veriftools/tla/tla2tools.jar:/opt/veriftools/tla/CommunityModules-deps.jar tla2sany.SANY "$(basename "$f")" >"$f.sany" 2>&1) || { echo "SANY failed: $f"; tail -20 "$f.sany"; rc=1; }
done
rm -rf "$tmp"
exit $rc
