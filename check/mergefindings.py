#!/usr/bin/env python3
"""Merge known_findings.d/*.json into known_findings.json (fragments are then removed).
PENDING commits of 'fixed' entries are resolved by --commit KEY=HASH arguments."""
import json, os, sys, re
V = os.path.dirname(os.path.dirname(os.path.abspath(__file__)))
commits = dict(a.split("=", 1) for a in sys.argv[1:] if "=" in a)
p = os.path.join(V, "known_findings.json")
d = json.load(open(p))
have = {e["key"]: e for e in d["findings"]}
fd = os.path.join(V, "known_findings.d")
for f in sorted(os.listdir(fd)):
    if not f.endswith(".json"):
        continue
    for e in json.load(open(os.path.join(fd, f))).get("findings", []):
        if e["key"] in commits:
            e["commit"] = commits[e["key"]]
        if e.get("status") == "fixed" and e.get("commit") and e["commit"] != "PENDING":
            w = e["what"]
            pre = "fixed: property=%s " % e["property"]
            if w.startswith(pre):
                w = w[len(pre):]
                if w.startswith("PENDING "):
                    w = w[len("PENDING "):]
            if not w.startswith(e["commit"]):
                w = e["commit"] + " " + w
            e["what"] = pre + w
        have[e["key"]] = e
d["findings"] = sorted(have.values(), key=lambda e: (e["property"], e["key"]))
json.dump(d, open(p, "w"), indent=1)
print(len(d["findings"]), "findings;", sum(1 for e in d["findings"] if e["status"] == "known"), "known,",
      sum(1 for e in d["findings"] if e["status"] == "fixed"), "fixed,",
      sum(1 for e in d["findings"] if e.get("commit") == "PENDING"), "pending")
