#!/bin/sh
# confirmseed.sh <seeded-name> <pkg-dir-for-demo> <go test -run regex> [extra pkgs to test with -tags test]
# Confirms a seeded change in a fresh scratch worktree: demo passes without the patch, patch applies and
# builds, demo fails with it, the tagged tests of the touched packages still pass. Appends the outcome
# to seeded/<name>/confirm.txt. Removes the worktree.
name=$1; pkg=$2; run=$3; shift 3
d=/verif/seeded/$name
wt=/tmp/mut/confirm-$name
export GOFLAGS=-mod=mod GOPROXY=off GOSUMDB=off GOTOOLCHAIN=local
git -C /repo worktree add -q "$wt" HEAD || exit 2
out=$d/confirm.txt; : > "$out"
cp "$d"/*_test.go "$wt/$pkg/" 2>/dev/null
(cd "$wt" && go test -tags test -count=1 -run "$run" "./$pkg/" >/tmp/mut/c1.txt 2>&1); r1=$?
echo "without patch: demo exit $r1" >> "$out"; tail -3 /tmp/mut/c1.txt >> "$out"
(cd "$wt" && git apply "$d/patch.diff") || { echo "patch does not apply" >> "$out"; }
(cd "$wt" && go build ./... >/tmp/mut/c2.txt 2>&1); echo "with patch: go build exit $?" >> "$out"
(cd "$wt" && go test -tags test -count=1 -run "$run" "./$pkg/" >/tmp/mut/c3.txt 2>&1); r3=$?
echo "with patch: demo exit $r3" >> "$out"; grep -m3 -i "violat\|FAIL\|panic" /tmp/mut/c3.txt >> "$out"
rm -f "$wt/$pkg"/*demo*_test.go
pkg_list="$pkg"; [ -n "$SKIP_PKG" ] && pkg_list=""
for p in $pkg_list "$@"; do
  (cd "$wt" && go test -tags test -count=1 "./$p/" >/tmp/mut/c4.txt 2>&1); echo "with patch: existing tagged tests of $p exit $?" >> "$out"; tail -2 /tmp/mut/c4.txt >> "$out"
done
git -C /repo worktree remove --force "$wt"
cat "$out"
[ $r1 -eq 0 ] && [ $r3 -ne 0 ]
